#!/usr/bin/env python3
"""Generates /verif/MANIFEST.json from the table below (single source of truth for what is claimed)."""
import json, os
V = '/verif'
CLAIMED = {
 'C01': dict(
   level='other', design='DESIGN.md §5 C01',
   technique='static analysis: must-pass-through of the holding/delta addition before every credit save (walked over the call chain), append-count linear forms of the emitter vs destination guards, exact-guard dominance of every debit below the transfers, pairwise exclusion (guard contradiction or CFG separation) of local credits and token-carrying messages, term identity of debited/shipped/credited quantity, load-modify-save pairing, credit-or-shipment cut after the debit with cross-function path correlation',
   text='Eight structural necessary conditions of conservation are decided for all paths: debits are exact (guarded Sub; an overdrawn NFT entry would be deleted and the excess created); a local credit and a message carrying the tokens on under the function\'s own name exclude each other (tokens are delivered once); credits add the existing holding (or the delta) before saving; the destination side accepts exactly the argument count the sender emits and the announced count is the number of entries; the quantity debited, set on the shipped entry and credited is one term; loaded accounts that are modified are saved; after the debit every successful path credits locally or ships. The read-key = write-key clause (R2) is a KNOWN FINDING on this tree (token-id||nonce aliasing, only partly repairable). The sums over histories are not decided.',
   note='Trusted: go/types + go/ssa; math/big semantics; A-deps; A-protomsg. One known finding listed in known_findings.json.'),
 'C02': dict(
   level='other', design='DESIGN.md §5 C02',
   technique='static analysis: exact-guard dominance for big.Int Sub/Add on balances with versioned operand terms, direction/amount classification of Value mutations per entry point against T-REG, cut of the wipe delete by the Frozen test; counter/role hand-over identities and success cuts (fresh-nonce clause); shared obligations: credit-adds-holding (C01-R1) and key provenance (C05-R3) as clauses of "changes only by the stated amount, on the entry named"',
   text='Every subtraction from a balance is dominated by exactly Cmp(minuend, subtrahend) >= 0 on the same versions of both operands (strict guards that reject the exact balance are reported too); the signed Add of the shared helper is followed by exactly Cmp(Value,0) >= 0; per registered name the Value mutations have the table\'s direction with amounts decoded from the arguments; supply-neutral functions never mutate a Value; wipe deletes only under Frozen of the entry read from the same account and key. That the stored number equals old +/- amount is math/big arithmetic and is not decided. Also claimed as necessary conditions: a credit adds to what the account holds (a save that overwrites is a supply change) and every balance write uses prefix||token||canonical nonce bytes with the token named in the input (a supply change cannot land on another entry).',
   note='Trusted: go/types + go/ssa; math/big; T-REG supply column.'),
 'C07': dict(
   level='other', design='DESIGN.md §5 C07',
   technique='static analysis: value identity (SSA/term) of counter read, +1, persisted counter, metadata nonce, return datum and log topic; key/account provenance of counter reads and writes; success-return cuts by the counter write, the zeroing and the role removal; message content extraction; the role handler decides on the sender\'s own list (shared with C03)',
   text='Create uses read+1 everywhere (one value), persists it under the key it read, on every successful path, and treats a failed read as an error; the hand-over zeroes the old counter and strips the role on every successful path, ships / writes the value it read, and the next owner installs the shipped number and the role. Uniqueness over histories with late or duplicated delivery is not decided. Only a holder of the create role advances the counter: the role handler consults the list of the account it was handed and the gate is bound to the sender.',
   note='Trusted: go/types + go/ssa; A-deps; single-creator discipline.'),
 'C08': dict(
   level='other', design='DESIGN.md §5 C08',
   technique='static analysis: field-write ownership per entry point (who may write which metadata field, and with what value shape), provenance of the marshalled entry at credits and shipments, two-edge cut for the hash check, binding table of the created literal; key-layout provenance on the NFT functions (one entry per (token, nonce), shared with C05-R3)',
   text='Only create, add-URI (append of the given URIs to the same list), update-attributes (replace by the given argument) and the freeze toggles write entry/metadata fields; the entry marshalled for a credit or shipment is the sender\'s / decoded one, never the destination\'s current entry; every NFT credit is cut by {no metadata at destination, equal hashes}; the created literal binds the documented arguments and the royalty bound cuts its save. Byte equality across a protobuf hop is C14\'s tables; chains as executions are not decided. Every NFT entry is stored under prefix||token||math/big\'s bytes of the nonce, so two nonces never share an entry.',
   note='Trusted: go/types + go/ssa; A-deps.'),
 'C15': dict(
   level='other', design='DESIGN.md §5 C15',
   technique='static analysis: key-layout provenance, writer/reader value-type agreement per key class, positive-value cut before marshalled writes, reader post-condition (known finding), search-before-append structure; shared obligations: the counter travels with the create role (C07-R2/R3) and SaveKeyValue cannot write protocol keys (C03-R6)',
   text='Writer-side conditions of the representation invariant: key layout, value type per key class on both the writing and the reading side, zero balances deleted rather than stored (with C02 the stored value is positive), create role appended only after a failed search of the same list. The key/metadata-nonce agreement (R4) is a KNOWN FINDING on this tree. The invariant over reachable states as such is not decided. Two history clauses are claimed through their writer-side conditions: the nonce counter is shipped and installed with the create role, and the user-key writer is cut off the protocol key space.',
   note='Trusted: go/types + go/ssa; C02-R1, C08-R1; A-deps. One known finding listed in known_findings.json.'),
 'C03': dict(
   level='other', design='DESIGN.md §5 C03',
   technique='static analysis: interprocedural effect enumeration + CFG cut by authority-guard edges (go/ssa), argument binding by canonical terms, table agreement with T-REG; cut of the user-key writer by the protected-prefix test on the written key; loop-shape rule for list removal',
   text='Every world-state effect (dependency mutator call or OutputTransfer literal, in every calling context) below each privileged entry point — resolved through the factory registrations — is shown to be cut on all CFG paths by the success edge of that function\'s authority guard with the right bindings (role constant of the table, sender account, Arguments[0]; caller == ESDTSCAddress; absent sender; caller == owner; caller in DNS set); the in-module role handler succeeds only under a matching list element. Structural necessary condition of the property for all inputs and role subsets; histories of role changes are not decided.',
   note='Trusted: go/types + go/ssa; T-REG (spec/registry.json) restating the role/authority of each protocol name; A-presence.'),
 'C04': dict(
   level='other', design='DESIGN.md §5 C04',
   technique='static analysis: key/account provenance dataflow + CFG cut by the freeze/pause gate with argument binding; success-return classification of the gate; sibling agreement of pause lookup/store; load-modify-save of the pause account; who-may-write table for the frozen flag',
   text='Every balance-class storage write below every non-exempt registered entry point is cut, in every calling context, by the success edge of the freeze/pause gate bound to the written account\'s address, the token-level key, the own pause handler, the entry held by that account and the ReturnCallAfterError flag; the gate succeeds only under the three stated conditions; pause lookup and toggle agree on account and key; one pause object serves all functions; freeze toggling never mutates Value.',
   note='Trusted: go/types + go/ssa; T-EXEMPT (the five exempt protocol names of the statement); A-presence; flag byte tables are C20.'),
 'C05': dict(
   level='other', design='DESIGN.md §5 C05',
   technique='static analysis: CFG cut of the user-key write by the namespace/self-call/non-contract guards, storage-key provenance (append chains on constant prefixes), account provenance, who-may-call table over dependency mutators; byte-range table of the non-contract guard\'s address classifier (shared with C20-R5)',
   text='Decides the guards of the SaveKeyValue write (same key tested and written, Arguments[i]/Arguments[i+1] pairs), the exact acceptance condition of IsAllowedToSaveUnderKey (operator and constant), that every other storage write below the 23 entry points uses a key with one of the three constant protocol prefixes and a token taken from the call\'s own arguments, in an account that is sender/destination/destination-argument/system account, and that account-level mutators are called only by their owning function. The frame condition as an observed diff is not decided. The classifier behind the non-contract guard reads exactly bytes [0,8) of the address, never the VM-type bytes.',
   note='Trusted: go/types + go/ssa; world state is reachable only through the interfaces of interface.go (no reflection/unsafe).'),
 'C09': dict(
   level='other', design='DESIGN.md §5 C09',
   technique='static analysis: two-edge CFG cut (exemption predicate false OR IsPayable true) over credit sites found by account provenance; return classification of the exemption predicate; guard cuts for metachain/self/length; field-write ownership',
   text='Every credit of a non-sender account below the three transfer entry points is cut by the union of the must-verify-false edge (called with the function\'s own minimum argument count) and the IsPayable(address of the credited account)-true edge; the exemption predicate waives only under the four stated exemptions; metachain/self/length guards cut all sender-side effects; the payable handler is written only by constructor (refusing default) and SetPayableHandler.',
   note='Trusted: go/types + go/ssa; the protocol argument layout of the three transfer functions; A-presence.'),
 'C10': dict(
   level='other', design='DESIGN.md §5 C10',
   technique='static analysis: string-shape flattening of emitted data (through loops and helper parameters) against the grammar Head(\"@\" hex)*; constant/guard agreement; classification of destination-side error exits (none decided by argument content); extraction and comparison of argument-position tables (linear forms a*i+b*n+c) of ledger and parser per role and execution side; error-propagation below the three transfer functions (shared with C17-R1)',
   text='Every emitted data string has the shape the call-arguments parser inverts, with the parsers\' separator constant; constant heads are the emitter\'s own protocol name; minimum-count constants, stride and the ledger\'s effective guards agree; and for each of the three transfer functions and both sides the positions the ledger uses for token, nonce/count, value/payload, destination, attached function and arguments equal the positions the parser binds to its exported fields. Numeric equality of parsed values and ledger diffs is not decided. The continuing side of the two single transfers and of SetUserName has no error exit decided by the bytes or the length of a forwarded argument; below the three transfer functions no error of a debit, credit or decode step is dropped, so an accepted call has moved all the parser reports.',
   note='Trusted: go/types + go/ssa; hex encode/decode are inverse; A-protomsg.'),
 'C14': dict(
   level='other', design='DESIGN.md §5 C14',
   technique='static analysis: wire-table extraction from struct tags, the .proto file and the AST of the generated marshaller/unmarshaller/Size and comparison; guard/return classification of the hand-written amount caster; index-bound entailment; fold-width and signed-reinterpretation bounds; must-pass-through of the explicit overflow test before every use of cursor+decoded length in all decoders (generated file included)',
   text='Table agreement only: tags = .proto = marshaller tag bytes (descending order, attributed per field) = unmarshaller (case, wire type, field) = Size contributions for the three messages; Size/MarshalTo length tables agree; sign byte 1 iff Sign()<0; magnitude at buf[1:] on both sides; reader negates exactly under 1 and rejects other sign bytes; caster index sites in range. The round trip, canonicity over all values and totality of the generated decoder are not decided (no protoc to regenerate, values are outside static reach).',
   note='Trusted: go/types, go/ast of the generated file, go/ssa; the .proto file as the documented format; one listed exception (MarshalTo nil case: buffer sized by Size).'),
 'C11': dict(
   level='other', design='DESIGN.md §5 C11',
   technique='static analysis: linear entailment of index/slice bounds from CFG edge facts, validator summaries under caller assumptions and call-site preconditions; taint of decoded counts; nil-ness cuts for optional fields and absent accounts; return-shape classification; staleness of length facts across stores to the measured field',
   text='All index/slice expressions of builtInFunctions are entailed in range; argument-decoded 64-bit counts are bounded before arithmetic, signed conversion, indexing or allocation (arithmetic-derived facts are not trusted: no circular wrap reasoning); every TokenMetaData dereference is cut by its presence test (or rests on A-protomsg, whose emitter-side obligation is checked); every account method call is cut by the presence test or A-presence; entry points return (out,nil)/(nil,err) and store only ReturnCode Ok. These are the panic sources the property names; panics inside dependencies or math/big and memory other than make sizes are not decided.',
   note='Trusted: go/types + go/ssa; A-len, A-argbytes, A-presence, A-protomsg, A-input.'),
 'C12': dict(
   level='other', design='DESIGN.md §5 C12',
   technique='static analysis: index-bound entailment and count taint over package parsers (exported methods as entry points), nil-ness cut for decoded numeric fields, constant/codec agreement between builder and parsers incl. the numeric encoders (big.Int.Bytes of the parameter); joiner identification in ToString over + chains, strings.Join and builder loops, whole-object assignments included',
   text='Decides totality clauses of the four parsers (all index/slice sites entailed in range incl. the parity lemma for the stride-2 loop and strings.Split length facts; the transfer count bounded before it is multiplied; decoded *big.Int fields nil-checked) and the grammar agreement builder <-> parsers (same separator constant, hex codec on every appended element). The round trip as an equation over all strings is not decided.',
   note='Trusted: go/types + go/ssa; A-len; strings.Split returns >= 1 element for a non-empty separator.'),
 'C13': dict(
   level='other', design='DESIGN.md §5 C13',
   technique='static analysis: interprocedural derivation set of the input structure with write/append/copy/mutator sinks; initialiser provenance of shared append bases; reachability-scoped scan for hidden state and nondeterminism sources with a positive control; allocation-site-sensitive flow of input memory through fields of locally built objects',
   text='Decides that nothing reachable from the entry points writes into memory derived from the input (stores, map updates, append/copy destinations, big.Int mutators), that every shared append base is initialised only from []byte(constant) so append always copies, that the shared big.Int zero never escapes or mutates, and that the execution region (entry points and parsers) contains no store to receiver/global state, map range, goroutine, channel, clock, randomness, reflection or %p. Determinism of the injected dependencies is assumed (A-deps).',
   note='Trusted: go/types + go/ssa; A-constcap (gc: []byte(const) has cap == len); A-deps.'),
 'C19': dict(
   level='other', design='DESIGN.md §5 C19',
   technique='static analysis: lockset dataflow ({unlocked, read, write} per mutex, defer-aware) with inferred guarded-field sets and call-site inheritance for helpers; critical-section counting; atomic-discipline and field-write-ownership checks; spare-capacity rule for shared append bases (shared with C13-R2)',
   text='The sound static counterpart of the race/linearizability statement: balanced locking on every path; all guarded fields (map values; cost and per-byte prices of the 15 priced objects) accessed under the right lock mode; each execution is one read-locked region released only by defer and each repricing rewrites all guarded fields in one write-locked region (hence one schedule per execution); every map operation is a single critical section and every container method a single map operation; atomic wrappers use only sync/atomic without load-then-store; all other object fields are immutable after construction. Histories are not enumerated. Executions hold only the read lock, so an append onto a shared base must allocate: every shared base is initialised from []byte(constant) only.',
   note='Trusted: go/types + go/ssa; sync.RWMutex / sync/atomic semantics; objects are published after construction.'),
 'C16': dict(
   level='other', design='DESIGN.md §5 C16',
   technique='static analysis: three-way table agreement (factory argument / constructor field / SetNewGasConfig copy) against T-REG, field-read ownership, CFG cuts for all-or-nothing schedule changes, must-pass-through of SetNewGasConfig in the broadcast loop and of every cost copy inside SetNewGasConfig, must-pass-through charge points; no return of GasScheduleChange without the decoder call; range cover of the lengths multiplied by StorePerByte over the arguments stored into the entry',
   text='For each priced protocol name the cost field is the table\'s field at all three places; only the documented per-byte prices are read (and each is); a schedule is stored and broadcast only after both tables decoded and passed the zero check, and every table field is of a kind that check inspects; every sender-side success path passes a charge that includes the own cost (structurally: cost, cost+…, cost*n, loop accumulator seeded with cost). The consumed amount as a number is not decided. Every schedule handed in is decoded (no short-cut return before validation), and for create / add-URI / update-attributes the argument positions whose lengths are multiplied by the store price cover every argument stored into the entry.',
   note='Trusted: go/types + go/ssa; T-REG; mapstructure.Decode and reflect-based zero check behave as documented.'),
 'C18': dict(
   level='proof', design='DESIGN.md §5 C18',
   technique='static analysis: registry extraction from the factory (constant keys, constructors, constant flags) compared with T-REG and the BuiltInFunction* constant set; spine cut of Add calls; abstract evaluation of the flag writer/reader constants (the flag condition must be an arithmetic-free comparison of the two epochs); field-store ownership',
   text='Finite, purely structural obligations, all discharged: exactly the 23 protocol names are registered once each on every successful path, bound to the table\'s constructor and flags, never removed/replaced; EpochConfirmed hands exactly epoch >= activationEpoch to a writer that stores the constant the reader tests (true) / another constant (false) independent of the previous value, so the flag equals the predicate on the last confirmed epoch for every notification sequence; the activation epoch comes from the configured value; epoch-driven constructors subscribe to the notifier; exactly the table\'s epoch rows use the flag.',
   note='Trusted: go/types + go/ssa; sync/atomic; the notifier calls back for every confirmed epoch; T-REG.'),
 'C20': dict(
   level='other', design='DESIGN.md §5 C20',
   technique='static analysis: extraction and comparison of (byte, mask, field) tables of writer and reader; index-bound entailment for the root package; rooted-write/alias analysis of the merge functions; must-read of every merged field on all paths; byte-range table of the address classifiers against their constants; guard/return classification of SafeSubUint64',
   text='Decides the structural clauses behind the laws: writer and reader flag tables agree (single-bit distinct masks, same length, zero value otherwise), all index/slice sites of the root package are in range and the metachain classification implies the contract classification, the merge functions never write through or keep a mutable alias of the merged-in account, SafeSubUint64 errors exactly under a < b and returns a-b otherwise. The laws as equations over all values are not decided.',
   note='Trusted: go/types + go/ssa; A-len.'),
 'C17': dict(
   level='proof', design='DESIGN.md §5 C17',
   technique='static analysis: error-propagation dataflow — path exploration of the SSA CFG from every fallible call under the assumption err != nil, pruned only by tests of that value; induction over call depth',
   text='For every dependency or carrier call site reachable from the 19 entry points, every return reachable with the error set returns a definitely non-nil error, and entry points never return an output together with an error; by induction over the call depth a failing dependency always surfaces as an error of ProcessBuiltinFunction — for every input and every fault position, which is the property (RetrieveValue and the pause lookup are excluded by the statement). All obligations are discharged, none assumed.',
   note='Trusted: go/types + go/ssa; A-deps (a dependency signals failure by a non-nil error); no panic on the explored paths (C11).'),
 'C06': dict(
   level='other', design='DESIGN.md §5 C06',
   technique='static analysis: dominance/cut of guards over go/ssa CFGs with linear entailment (Fourier–Motzkin), value provenance classification of stores, path check "moved not copied", taint of decoded counts',
   text='Static rules over the SSA form of /repo decide, for every path and every input at once, that (R1) each of the unsigned gas subtractions is dominated by guards entailing minuend >= subtrahend, (R2) every store to VMOutput.GasRemaining is non-inflating by provenance, (R3) gas put into an OutputTransfer is moved out of GasRemaining and never refilled, (R4) no unbounded decoded count enters gas arithmetic. Together these are a provenance argument for GasRemaining + forwarded gas <= GasProvided; the numeric amount consumed is not decided, hence level other rather than proof.',
   note='Trusted: go/types + go/ssa (x/tools v0.29.0); axioms A-cost (prices non-zero < 2^32) and A-argbytes (argument bytes and count < 2^31) so that size*price sums do not wrap; dependencies do not touch VMOutput.'),
}

# Round-5 and audit additions (appended to the technique / text of each property; see DESIGN.md §12.4, §12.5)
EXTRA = {
 'C01': ('; destination-only error exits classified by what decides them (shared with C10-R5)',
         ' Also claimed: the destination side of a transfer refuses nothing the sender side ships (no destination-only rejection decided by the content of a forwarded argument), since a shipped token that is refused is debited and never credited.'),
 'C02': ('; hand-over with several counter reads / resets in branches (happens-before of reset and read at the first level where the call chains part)',
         ' The counter value installed or shipped at a hand-over must come from a read that cannot follow the reset.'),
 'C04': ('; value obligation on the frozen flag stored below ESDTFreeze / ESDTUnFreeze (the function\'s own flag, not a toggle)',
         ' Below ESDTFreeze / ESDTUnFreeze the stored flag is the function\'s own freeze constant (a flip of the stored bit is reported).'),
 'C07': ('; stale-read rule (no counter read used for the new holder or the message may follow the reset); must-pass-through of a set of sites per level (resets / removals placed in branches); same-shard install under the shard-equality assumption; role operations attributed to the account at the deepest level that performs and saves them',
         ' The hand-over rules hold for any number of reads and for resets placed in separate branches; with the new holder in the same shard, counter write and role addition lie on every successful path.'),
 'C10': ('; presence obligation: under len(args) > p every successful parser path stores CallFunction read from position p (per call level); who-may-encode rule for unsigned 64-bit quantities (no signed big.Int constructor); destination-only rejections for the multi transfer incl. tests outside the fact language',
         ' The parser reports the attached function exactly when its argument is there (the mirror of the ledger\'s len(Arguments) > min test); no nonce or quantity is encoded through a signed constructor; the multi transfer\'s destination side refuses no shipped list for its content.'),
 'C12': ('; provenance of the split subject through helpers (only the leading-separator trim may precede the split)',
         ' The string handed to the tokenizer is the input itself, or the input with leading separators removed: a trailing separator encodes an empty last argument.'),
 'C13': ('; field-sensitive flow through locally built objects; table of read-only foreign callees, all other foreign callees handed input-derived memory count as writers (bytes.NewBuffer, append on a derived slice)',
         ''),
 'C14': ('; per decoder case the set of message fields touched (exactly the field of the tag); interval obligation for the amount writer (every write lies below the length returned on each reachable path, through length helpers and tuple tail calls); freshness of every *big.Int the amount reader returns',
         ' Each decoder case reads and writes only its own field (no field is built on another one\'s storage); the amount writer touches only the bytes it reports (the marshaller fills the buffer back to front); every decoded amount is a newly allocated object.'),
 'C15': ('; forward-loop removal rule (shared with C03-R7); load-modify-save pairing generalised to every loaded account (modification followed by SaveAccount on every path to success)',
         ' A role removal skips no list element; an account that is loaded and modified is saved after the last modification on every successful path.'),
 'C16': ('; decoder discovery by effect (reaches the map decoder) in both forms (returns the schedule / fills the object handed in) with validation followed through helpers; freshness of every decode target below GasScheduleChange; priced-range cover of stored arguments; moved-not-copied for forwarded gas (shared with C06-R3)',
         ' A new schedule is decoded into a zero-valued fresh object (decoding over the live schedule or a copy of it would let a partial schedule pass the zero test); the store price covers every stored argument; forwarded gas is what remains after all charges.'),
 'C18': ('; loop rule for the key listing (every key read is appended before the next iteration or a return)',
         ' The container\'s key listing reports every registered name, independent of activation.'),
 'C19': ('; guarded-field discovery from writes under either lock mode (a write under the read lock is a violation); fresh-object rule for repricing (shared with C16-R3)',
         ' A repricing hands every function one complete, freshly decoded schedule object; a field written while the lock is held in any mode must be written under the write lock.'),
 'C20': ('; flag writers that assign instead of OR-ing are judged by happens-before of writes to the same byte; shape rule for the merged transfer list (append base is the own list, tail starts at the own length)',
         ' Flags that share a byte are OR-ed (an assignment that may follow another write of the byte loses that flag); the merged transfer list is the own list followed by the tail of the merged-in list from the own length on.'),
}
for pid, (t, x) in EXTRA.items():
    CLAIMED[pid]['technique'] += t
    CLAIMED[pid]['text'] += x

# Round-6 additions (DESIGN.md §12.6) and twin round (§14.5)
EXTRA2 = {
 'C01': ('; gate binding to the input\'s return-after-error flag on every credit below the transfers (shared with C04-R1)',
         ' A bounced transfer is credited back: the credit passes the freeze/pause gate bound to the input\'s own return-after-error flag.'),
 'C02': ('; cut of the user-key write by the protected-prefix test on the very key written (shared with C03-R6)',
         ' SaveKeyValue cannot write a balance entry.'),
 'C05': ('; loop obligation: a turn of the write loop reaches the next one only through the write or through the stored-equals-listed edge',
         ' Every listed pair is stored (or already is what is stored): no pair is dropped for another reason.'),
 'C07': ('; no error exit reachable from the successful counter write',
         ' The counter is advanced last: nothing can refuse the create once the counter write has succeeded.'),
 'C08': ('; must-pass-through of the function\'s own change (append of the URIs / replacement of the attributes) on every successful path, per call level, under the argument-count facts of the call; dead-branch pruning per calling context',
         ' ESDTNFTAddURI / ESDTNFTUpdateAttributes cannot succeed without having made their change (empty attributes are attributes).'),
 'C11': ('; the premise of totality on stored entries: no caller-chosen bytes under a protocol key (shared with C03-R6)',
         ' Also claimed: SaveKeyValue cannot plant an entry under a protocol key (a planted entry with a nil Value panics in the next function that reads it).'),
 'C13': ('; shared-big.Int rule over the package-level values of every package of the module',
         ''),
 'C14': ('; constant folding of the varint size function over the 64 bit lengths against ceil(L/7); entailment of the reader\'s length classes (nil exactly under len == 1, a number under len >= 2) from the facts at each return',
         ' The varint size function equals ceil(bits/7) for every bit length; one byte decodes to nil and nothing else does.'),
 'C15': ('; flag exception of the zero-balance rule only under the token-level key; whole-entry provenance of shipped / credited entries (shared with C08-R2)',
         ' Under a key with a nonce part an entry without balance is deleted whatever its flags; the entry shipped or credited is the holder\'s entry as a whole (Type travels with the metadata).'),
 'C17': ('; for every sentinel tolerated with errors.Is on a carrier call: no block of the carrier entered through a dependency\'s failure edge loads that sentinel',
         ' A dependency failure is never reported as (or wrapped into) a sentinel that a caller tolerates.'),
 'C20': ('; shift-accumulate width rule over the root package; in-place writes into objects found in the result\'s own collections (adopted by pointer from earlier merges)',
         ' No classifier folds an identifier into a fixed-width word without a length bound; a merge never rewrites in place an object it may have adopted from an account merged in earlier.'),
}
for pid, (t, x) in EXTRA2.items():
    CLAIMED[pid]['technique'] += t
    CLAIMED[pid]['text'] += x
# Round-7 additions (DESIGN.md §12.7)
EXTRA3 = {
 'C03': ('; freshness of the role list the check searches (every list the reader returns is allocated by it in the call)',
         ' The role list examined by the check is decoded in the call from the account\'s stored bytes: a list remembered on the handler (which the set-role function appends to) is reported.'),
 'C07': ('; who-may-write rule for the counter key (only below ESDTNFTCreate and ESDTNFTCreateRoleTransfer)',
         ' Nothing but create and the hand-over writes the counter entry.'),
 'C08': ('; the destination\'s own entry saved back under a key with a nonce part must have taken over the arriving TokenMetaData (dominating field store)',
         ' A credit that tops up the destination\'s existing NFT entry instead of storing the arriving one is reported unless it takes the arriving metadata over (equal hashes do not mean equal URIs / attributes).'),
 'C15': ('; who-may-write rule for the counter key and the create-side counter rule (shared with C07-R5 / C07-R1)',
         ' The counter entry is written only by create (stored counter + 1, read from the account) and by the hand-over.'),
 'C12': ('; must-pass-through of a memo-dropping store on every path through a writer of the builder\'s function / elements (when a renderer returns a field of the builder)',
         ' The builder renders its current function and elements: a rendering kept on the builder is accepted only if every writer drops it.'),
 'C14': ('; presence tests of the generated encoders (AST: every condition on the message is the field\'s own presence test)',
         ' Whether a field is encoded is decided by the field\'s own presence test, never by a helper that looks into it (a present-but-default sub-message is written).'),
 'C18': ('; freshness of a flag object held by pointer (every store into the flag field stores an object allocated for this function object)',
         ' Each epoch-gated function owns its activation flag object.'),
 'C19': ('; lockset extended to state-holding fields touched through methods called on their address (sync/atomic values, sync.Map, the module\'s atomic wrappers): written under the lock somewhere => guarded; an atomic write outside every critical section is reported, lock-free atomic reads are accepted',
         ' A cache published beside the map (atomic snapshot) must be written inside a critical section of the map\'s mutex: a publication after the unlock races with the invalidation made under the write lock.'),
 'C20': ('; loop obligation for the storage-update merge (every turn of the loop over the merged-in updates passes the store of that turn\'s key and update; no delete on an update map below the merge)',
         ' Later storage updates win: no update of the merged-in account is skipped (an update with empty data is a deletion the node must see) and nothing is removed from the result\'s map.'),
}
for pid, (t, x) in EXTRA3.items():
    CLAIMED[pid]['technique'] += t
    CLAIMED[pid]['text'] += x
# Round-8 additions (DESIGN.md §12.8)
EXTRA4 = {
 'C01': ('; cut of every pause-handler consultation below the transfers by the unset return-after-error flag; cut of every "empty entry" return of a token reader by the nothing-stored edge of its own storage read',
         ' A refund is never refused for a pause (no pause test outside the exemption); a reader reports an empty holding only when nothing is stored under the key (a credit adds the stored holding).'),
 'C02': ('; codec agreement of the counter reader and writer (shared with C15-R2)',
         ' The counter that makes a nonce fresh is read with the codec it is written with.'),
 'C07': ('; codec agreement of the counter reader and writer (shared with C15-R2)',
         ' The counter is read with the codec it is written with.'),
 'C11': ('; loop obligation for pre-sized lists of pointers (every turn stores its slot before the next one begins)',
         ' A list made with make([]*T, n) and filled slot by slot has no nil hole left by a skipped turn.'),
 'C12': ('; grammar of the data strings emitted by the built-in functions (shared with C10-R1)',
         ' The built-in functions\' own encoder emits Head("@" hex)* with nothing trimmed afterwards.'),
 'C16': ('; loop obligation for the persist charge of SaveKeyValue (every turn of the pair loop adds a PersistPerByte component, directly or through helpers that always do)',
         ' Every listed pair of SaveKeyValue is charged its persist price, also when its value is unchanged.'),
}
for pid, (t, x) in EXTRA4.items():
    CLAIMED[pid]['technique'] += t
    CLAIMED[pid]['text'] += x
# Round-9 additions (DESIGN.md §12.9)
EXTRA5 = {
 'C03': ('; must-pass-through of the role-list write after its encoding; stale-position rule for removals inside a loop',
         ' An encoded role list is written on every successful path (an emptied list is persisted); no role is removed at a position computed before an earlier removal of the same pass.'),
 'C05': ('; exact-capacity key prefixes (shared with C13-R2)',
         ' Storage keys are built on prefixes without spare capacity.'),
 'C07': ('; exhaustive search before the create role is appended (shared with C15-R5)',
         ' The create role is appended only after a search of the whole list found none.'),
 'C08': ('; tables and presence tests of the generated MetaData encoder (shared with C14-R1)',
         ' The metadata message is encoded field by field as it is (no URI is left out).'),
 'C12': ('; element-list stores of the builder are appends onto the list itself; code-metadata flag tables (shared with C20-R1)',
         ' No builder method other than Clear / SetLast replaces the argument list; the code-metadata flags of deploy data are written and read at the same positions.'),
 'C15': ('; the search before the append of the create role leaves towards the append only through the loop header',
         ' The search that prevents duplicate create roles looks at every element.'),
}
for pid, (t, x) in EXTRA5.items():
    CLAIMED[pid]['technique'] += t
    CLAIMED[pid]['text'] += x
NA = {}
for i in range(1, 21):
    pid = 'C%02d' % i
    if pid not in CLAIMED:
        NA[pid] = 'not claimed yet: the static rules designed for it (DESIGN.md §5) are not implemented in this commit'
NA_OVERRIDE = {}  # every property is claimed for its structural clauses; what each check does not decide is stated in its level text
NA.update(NA_OVERRIDE)
checks = []
for pid in sorted(CLAIMED):
    c = CLAIMED[pid]
    checks.append(dict(
        property_id=pid,
        quick_cmd='./vcheck.sh -p %s -tier quick' % pid,
        thorough_cmd='./vcheck.sh -p %s -tier thorough' % pid,
        evidence_file='/verif/evidence/%s.json' % pid,
        replay_cmd_template='./vcheck.sh -replay {path}',
        engine='vcheck',
        level_claimed=dict(category=c['level'], text=c['text'], design_ref=c['design']),
        level_note=c['note'],
        technique=c['technique']))
m = dict(
    version=1,
    setup_cmd='cd /verif/checker && GOFLAGS=-mod=mod GOPROXY=off GOSUMDB=off GOTOOLCHAIN=local GOWORK=off go build -o /verif/bin/vcheck .',
    hooks=dict(guard='verif', enable='no hooks: the checker reads the source of /repo; nothing in /repo is built with a tag',
               baseline_off_cmd='cd /repo && GOFLAGS=-mod=mod GOPROXY=off GOSUMDB=off go test -vet=off -count=1 ./...',
               source_commits=[], add_only=True),
    engines=[dict(name='vcheck', path='/verif/checker', serves_properties=sorted(CLAIMED),
                  kind_free_text='repository-specific static analyser (go/packages + go/types + go/ssa): CFG cut/dominance rules with linear entailment, effect/provenance dataflow, table agreement; nothing from /repo is executed')],
    checks=checks,
    notes='Static analysis only. Every check loads /repo\'s current working tree, reports file:line + rule + construct for each failed obligation, and fails on undecided obligations, instance floors and unresolved anchors. Repairs of genuine defects are the fix: commits in /repo listed in known_findings.json.',
    not_applicable=[dict(property_id=p, reason=NA[p]) for p in sorted(NA)],
)
json.dump(m, open(os.path.join(V, 'MANIFEST.json'), 'w'), indent=1)
print('claimed', sorted(CLAIMED), 'n/a', len(NA))
