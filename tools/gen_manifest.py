#!/usr/bin/env python3
"""Generates /verif/MANIFEST.json from the table below (single source of truth for what is claimed)."""
import json, os
V = '/verif'
CLAIMED = {
 'C06': dict(
   level='other', design='DESIGN.md §5 C06',
   technique='static analysis: dominance/cut of guards over go/ssa CFGs with linear entailment (Fourier–Motzkin), value provenance classification of stores, path check "moved not copied", taint of decoded counts',
   text='Static rules over the SSA form of /repo decide, for every path and every input at once, that (R1) each of the unsigned gas subtractions is dominated by guards entailing minuend >= subtrahend, (R2) every store to VMOutput.GasRemaining is non-inflating by provenance, (R3) gas put into an OutputTransfer is moved out of GasRemaining and never refilled, (R4) no unbounded decoded count enters gas arithmetic. Together these are a provenance argument for GasRemaining + forwarded gas <= GasProvided; the numeric amount consumed is not decided, hence level other rather than proof.',
   note='Trusted: go/types + go/ssa (x/tools v0.29.0); axioms A-cost (prices non-zero < 2^32) and A-argbytes (argument bytes and count < 2^31) so that size*price sums do not wrap; dependencies do not touch VMOutput.'),
}
NA = {}
for i in range(1, 21):
    pid = 'C%02d' % i
    if pid not in CLAIMED:
        NA[pid] = 'not claimed yet: the static rules designed for it (DESIGN.md §5) are not implemented in this commit'
NA_OVERRIDE = {}
NA.update(NA_OVERRIDE)
checks = []
for pid in sorted(CLAIMED):
    c = CLAIMED[pid]
    checks.append(dict(
        property_id=pid,
        quick_cmd='./vcheck.sh -p %s -tier quick' % pid,
        thorough_cmd='./vcheck.sh -p %s -tier thorough' % pid,
        evidence_file='/verif/evidence/%s.json' % pid,
        replay_cmd_template='./vcheck.sh -replay {path}',
        engine='vcheck',
        level_claimed=dict(category=c['level'], text=c['text'], design_ref=c['design']),
        level_note=c['note'],
        technique=c['technique']))
m = dict(
    version=1,
    setup_cmd='cd /verif/checker && GOFLAGS=-mod=mod GOPROXY=off GOSUMDB=off GOTOOLCHAIN=local GOWORK=off go build -o /verif/bin/vcheck .',
    hooks=dict(guard='verif', enable='no hooks: the checker reads the source of /repo; nothing in /repo is built with a tag',
               baseline_off_cmd='cd /repo && GOFLAGS=-mod=mod GOPROXY=off GOSUMDB=off go test -vet=off -count=1 ./...',
               source_commits=[], add_only=True),
    engines=[dict(name='vcheck', path='/verif/checker', serves_properties=sorted(CLAIMED),
                  kind_free_text='repository-specific static analyser (go/packages + go/types + go/ssa): CFG cut/dominance rules with linear entailment, effect/provenance dataflow, table agreement; nothing from /repo is executed')],
    checks=checks,
    notes='Static analysis only. Every check loads /repo\'s current working tree, reports file:line + rule + construct for each failed obligation, and fails on undecided obligations, instance floors and unresolved anchors. Repairs of genuine defects are the fix: commits in /repo listed in known_findings.json.',
    not_applicable=[dict(property_id=p, reason=NA[p]) for p in sorted(NA)],
)
json.dump(m, open(os.path.join(V, 'MANIFEST.json'), 'w'), indent=1)
print('claimed', sorted(CLAIMED), 'n/a', len(NA))
