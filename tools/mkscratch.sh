#!/bin/sh
# usage: mkscratch.sh <dir with patch.diff> <name>  — scratch copy of /repo with the patch applied at /tmp/w-<name> (remove it yourself)
d=$(realpath $1); w=/tmp/w-$2; rm -rf $w $w.out; mkdir -p $w; cp -r /repo/. $w/ && rm -rf $w/.git
(cd $w && patch -p1 -s < $d/patch.diff) || { echo "PATCH FAILED"; exit 3; }
echo $w
