#!/usr/bin/env python3
"""Self-test of the checker: applies each catalogue mutant to a scratch copy of /repo (outside /repo and /verif),
runs vcheck on it in a separate process and reports whether the expected property raised a violation.
usage: mutants.py [-p C06,C11] [-j 8] [id ...]      (no ids = whole catalogue)"""
import subprocess, shutil, os, sys, json, argparse, tempfile, concurrent.futures as cf
sys.path.insert(0, '/verif/mutants')
from catalogue import M, SILENT
ENV = dict(os.environ, GOFLAGS='-mod=mod', GOPROXY='off', GOSUMDB='off', GOTOOLCHAIN='local', GOWORK='off')
ap = argparse.ArgumentParser()
ap.add_argument('-p', default='')
ap.add_argument('-j', type=int, default=6)
ap.add_argument('--props', default='', help='properties to run on every mutant (default: the mutant\'s own)')
ap.add_argument('--json', default='')
ap.add_argument('ids', nargs='*')
a = ap.parse_args()
root = tempfile.mkdtemp(prefix='vmut-')
def run(m):
    mid, prop, f, old, new, note = m[:6]
    d = os.path.join(root, mid)
    try:
        shutil.copytree('/repo', d, ignore=shutil.ignore_patterns('.git'))
        p = os.path.join(d, f)
        s = open(p).read()
        if s.count(old) != 1:
            return (mid, prop, 'NOAPPLY(%d)' % s.count(old), '', note)
        open(p, 'w').write(s.replace(old, new))
        b = subprocess.run(['go', 'build', './...'], cwd=d, env=ENV, capture_output=True, text=True)
        if b.returncode != 0:
            return (mid, prop, 'NOBUILD', (b.stderr.strip().splitlines() or [''])[-1], note)
        props = a.props or prop
        v = subprocess.run(['/verif/bin/vcheck', '-repo', d, '-verif', d + '.out', '-known', '/verif/known_findings.json', '-p', props],
                           env=ENV, capture_output=True, text=True)
        rules = sorted(set(l.split()[1] for l in v.stdout.splitlines() if l.strip().startswith('[')))
        hit = sorted(set(l.split()[1].split('=')[1] for l in v.stdout.splitlines() if l.startswith('VIOLATION')))
        st = {0: 'MISSED', 1: 'detected', 2: 'NOVERDICT'}.get(v.returncode, 'rc%d' % v.returncode)
        if v.returncode == 1 and prop not in hit:
            st = 'other-only'
        if mid in SILENT:
            st = 'silent-ok' if v.returncode == 0 else 'FALSE-ALARM'
        return (mid, prop, st, ','.join(hit) + ' ' + ','.join(rules), note)
    finally:
        shutil.rmtree(d, ignore_errors=True)
        shutil.rmtree(d + '.out', ignore_errors=True)
sel = [m for m in M if (not a.ids or m[0] in a.ids) and (not a.p or m[1] in a.p.split(','))]
res = []
with cf.ThreadPoolExecutor(max_workers=a.j) as ex:
    for r in ex.map(run, sel):
        res.append(r)
        print('%-34s %-4s %-10s %s   # %s' % r); sys.stdout.flush()
shutil.rmtree(root, ignore_errors=True)
det = sum(1 for r in res if r[2] in ('detected', 'silent-ok'))
print('detected %d / %d   missed %d   other %d' % (det, len(res), sum(1 for r in res if r[2] == 'MISSED'), len(res) - det - sum(1 for r in res if r[2] == 'MISSED')))
if a.json:
    json.dump(res, open(a.json, 'w'), indent=1)
