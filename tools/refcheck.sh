#!/bin/sh
# usage: refcheck.sh [ids...]  — every behaviour-preserving refactoring under /verif/refactors must leave all 20 checks silent.
# Applies each patch to a scratch copy of /repo (under /tmp, removed afterwards) and runs every check on it; prints the alarms.
cd /verif
ids="$@"; [ -z "$ids" ] && ids=$(ls refactors)
./vcheck.sh -p C12 >/dev/null 2>&1   # make sure bin/vcheck is current
tmp=$(mktemp -d /tmp/refchk-XXXX)
echo $ids | tr ' ' '\n' | xargs -P ${JOBS:-6} -I{} sh -c "tools/seedcheck.sh /verif/refactors/{} all 400 > $tmp/{}.txt 2>&1"
bad=0
for id in $ids; do
  n=$(grep -c "^VIOLATION" $tmp/$id.txt)
  if [ "$n" != "0" ] || grep -q "FAILED" $tmp/$id.txt; then bad=$((bad+1)); echo "=== $id: $n alarms"; grep -A3 "^\s*\[" $tmp/$id.txt | grep -v "^--" | head -${LINES_PER:-12}; else echo "=== $id: silent"; fi
done
rm -rf $tmp
echo "refactorings with alarms: $bad"
[ $bad -eq 0 ]
