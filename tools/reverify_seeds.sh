#!/bin/bash
# Re-confirms every kept seed (suite passes with it, demo fails with it, demo passes without it) and re-records which checks report it.
cd /verif
for d in seeded/*/; do
  id=$(basename $d)
  prop=$(python3 -c "import json;print(json.load(open('$d/meta.json'))['breaks_property'])")
  needs=$(python3 -c "import json;print(json.load(open('$d/meta.json'))['needs_to_manifest'])")
  tools/seedverify.sh /verif/seeded/$id $id $prop "$needs"
  rm -rf /tmp/sv-src-$id /tmp/sv-$id.*
done
