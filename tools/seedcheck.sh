#!/bin/sh
# usage: seedcheck.sh <dir with patch.diff> [props]   — applies the patch to a scratch copy of /repo and runs the checks on it
d=$1; props=${2:-all}
w=$(mktemp -d /tmp/seedchk-XXXX)
cp -r /repo/. $w/ && rm -rf $w/.git
(cd $w && patch -p1 -s < $d/patch.diff) || { echo "PATCH FAILED"; rm -rf $w; exit 3; }
export GOFLAGS=-mod=mod GOPROXY=off GOSUMDB=off GOTOOLCHAIN=local
(cd $w && go build ./... ) || { echo "BUILD FAILED"; rm -rf $w; exit 3; }
${VCHECK:-/verif/bin/vcheck} -repo $w -verif $w.out -known /verif/known_findings.json -p $props | grep -v "^      fact" | grep "^\s*\[\|VIOLATION\|^      [^ ]" | head -${3:-40}
rm -rf $w $w.out
