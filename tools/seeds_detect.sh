#!/bin/sh
# usage: seeds_detect.sh — for every kept seeded change: apply to a scratch copy of /repo, run the check of the property it breaks, report
# detected / MISSED, the rules that fired, and WEAK when the only reports are floor / anchor / undecided failures (the checker could not
# analyse the changed code — that is an alarm, but not a diagnosis: such a seed counts as not yet understood by its rule).
# (tools/reverify_seeds.sh additionally re-confirms each seed's demonstration; this is the quick regression of the checker.)
cd /verif
./vcheck.sh -p C12 >/dev/null 2>&1
tmp=$(mktemp -d /tmp/seeddet-XXXX)
ls seeded | xargs -P ${JOBS:-6} -I{} sh -c 'p=$(python3 -c "import json;print(json.load(open(\"/verif/seeded/{}/meta.json\"))[\"breaks_property\"])"); tools/seedcheck.sh /verif/seeded/{} $p 4000 > '$tmp'/{}.out 2>&1; n=$(grep -c "^VIOLATION property=$p" '$tmp'/{}.out); v=$(grep -c "^ *\[violation\] $p-" '$tmp'/{}.out); r=$(grep -o "^ *\[violation\] $p-R[0-9a-z]*" '$tmp'/{}.out | sed "s/.*\] //" | sort -u | tr "\n" "," ); echo "{} $p $n $v ${r:--}" > '$tmp'/{}.txt'
cat $tmp/*.txt | awk '{ if ($3 == 0) { print $1, $2, "MISSED"; m++ } else if ($4 == 0) { print $1, $2, "WEAK (no violation-kind report)"; w++; d++ } else d++; if (ENVIRON["VERBOSE"] != "") print $1, $2, "rules:", $5 } END { print "detected", d+0, "missed", m+0, "weak", w+0 }'
rm -rf $tmp
