#!/bin/sh
# usage: seeds_detect.sh — for every kept seeded change: apply to a scratch copy of /repo, run the check of the property it breaks, report detected / MISSED.
# (tools/reverify_seeds.sh additionally re-confirms each seed's demonstration; this is the quick regression of the checker.)
cd /verif
./vcheck.sh -p C12 >/dev/null 2>&1
tmp=$(mktemp -d /tmp/seeddet-XXXX)
ls seeded | xargs -P ${JOBS:-6} -I{} sh -c 'p=$(python3 -c "import json;print(json.load(open(\"/verif/seeded/{}/meta.json\"))[\"breaks_property\"])"); n=$(tools/seedcheck.sh /verif/seeded/{} $p 400 2>&1 | grep -c "^VIOLATION property=$p"); echo "{} $p $n" > '$tmp'/{}.txt'
cat $tmp/*.txt | awk '{ if ($3 == 0) { print $1, $2, "MISSED"; m++ } else d++ } END { print "detected", d+0, "missed", m+0 }'
rm -rf $tmp
