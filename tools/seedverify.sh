#!/bin/bash
# usage: seedverify.sh <seed-dir-with patch.diff+demo_test.go> <id> <property> "<needs>"
# Confirms in a scratch worktree (outside /repo and /verif): suite passes with the change, demo fails with it, demo passes without it;
# then records the seed under /verif/seeded/<id>/ together with the verdict of the checks on the changed tree.
set -u
src=$1; id=$2; prop=$3; needs=$4
if [ ! -f $src/demo_test.go ] && [ -f $src/demo_test.go.txt ]; then mkdir -p /tmp/sv-src-$id; cp $src/patch.diff /tmp/sv-src-$id/; cp $src/demo_test.go.txt /tmp/sv-src-$id/demo_test.go; [ -f $src/notes.md ] && cp $src/notes.md /tmp/sv-src-$id/; src=/tmp/sv-src-$id; fi
export GOFLAGS=-mod=mod GOPROXY=off GOSUMDB=off GOTOOLCHAIN=local
wt=/tmp/sv-$id
git -C /repo worktree remove --force $wt 2>/dev/null
git -C /repo worktree add -q $wt HEAD || exit 2
pk=$(grep -m1 '^package ' $src/demo_test.go | awk '{print $2}' | sed 's/_test$//')
case $pk in
  esdt) pkgdir=data/esdt;; data) pkgdir=data;; parsers) pkgdir=parsers;; vmcommon) pkgdir=.;; atomic) pkgdir=atomic;; container) pkgdir=container;;
  txDataBuilder) pkgdir=txDataBuilder;; check) pkgdir=check;; *) pkgdir=builtInFunctions;;
esac
cp $src/demo_test.go $wt/$pkgdir/zz_seed_demo_test.go
( cd $wt && go test -vet=off -count=1 -run 'TestC[0-9]|Seed|Demo' ./$pkgdir/ >/tmp/sv-$id.clean.log 2>&1 ); clean_demo=$?
# whole-file demo: run all tests of the demo file by name
names=$(grep -o '^func Test[A-Za-z0-9_]*' $src/demo_test.go | sed 's/func //' | paste -sd'|')
( cd $wt && go test -vet=off -count=1 -run "^($names)\$" ./$pkgdir/ >/tmp/sv-$id.clean.log 2>&1 ); clean_demo=$?
( cd $wt && git apply $src/patch.diff ) || { echo "patch does not apply"; git -C /repo worktree remove --force $wt; exit 2; }
( cd $wt && go build ./... && rm -f $pkgdir/zz_seed_demo_test.go && go test -vet=off -count=1 ./... >/tmp/sv-$id.suite.log 2>&1 ); suite=$?
cp $src/demo_test.go $wt/$pkgdir/zz_seed_demo_test.go
( cd $wt && go test -vet=off -count=1 -run "^($names)\$" ./$pkgdir/ >/tmp/sv-$id.mut.log 2>&1 ); mut_demo=$?
rm -f $wt/$pkgdir/zz_seed_demo_test.go
# the checks on the changed tree
/verif/bin/vcheck -repo $wt -verif /tmp/sv-$id.out -known /verif/known_findings.json -p all > /tmp/sv-$id.check.log 2>&1
hits=$(grep '^VIOLATION' /tmp/sv-$id.check.log | sed 's/.*property=\([A-Z0-9]*\).*/\1/' | sort -u | paste -sd,)
rules=$(grep '^\s*\[' /tmp/sv-$id.check.log | awk '{print $2}' | sort -u | paste -sd,)
git -C /repo worktree remove --force $wt; rm -rf /tmp/sv-$id.out
echo "$id: suite_with_change=$suite (0=pass) demo_with_change=$mut_demo (nonzero=fails) demo_without=$clean_demo (0=pass) caught_by=[$hits] rules=[$rules]"
if [ $suite -eq 0 ] && [ $mut_demo -ne 0 ] && [ $clean_demo -eq 0 ]; then
  mkdir -p /verif/seeded/$id
  [ "$src" != "/verif/seeded/$id" ] && cp $src/patch.diff /verif/seeded/$id/patch.diff
  cp $src/demo_test.go /verif/seeded/$id/demo_test.go.txt
  [ -f $src/notes.md ] && cp $src/notes.md /verif/seeded/$id/notes.md
  python3 - "$id" "$prop" "$needs" "$hits" "$rules" "$pkgdir" "$names" <<'PY'
import json,sys
id,prop,needs,hits,rules,pkgdir,names=sys.argv[1:8]
json.dump({"id":id,"breaks_property":prop,"needs_to_manifest":needs,
 "confirmed":{"suite_passes_with_change":True,"demo_fails_with_change":True,"demo_passes_without_change":True,
   "commands":["git -C /repo worktree add /tmp/sv-%s HEAD"%id,"git apply patch.diff","go build ./... && go test -vet=off -count=1 ./...",
               "go test -vet=off -count=1 -run '^(%s)$' ./%s/   (demo copied to %s/zz_seed_demo_test.go; with and without the patch)"%(names,pkgdir,pkgdir)]},
 "checks_on_changed_tree":{"violations_reported_by":hits.split(',') if hits else [],"rules":rules.split(',') if rules else [],"detected_by_own_property":prop in hits.split(',')},
 "origin":"independent sub-agent given only the property text and a scratch worktree"},open('/verif/seeded/%s/meta.json'%id,'w'),indent=1)
PY
  echo "  kept under /verif/seeded/$id"
else
  echo "  NOT KEPT (confirmation failed)"; tail -5 /tmp/sv-$id.suite.log /tmp/sv-$id.mut.log /tmp/sv-$id.clean.log
fi
