#!/usr/bin/env python3
"""Extras of the thorough tier for one property (invoked by vcheck itself, results go into the evidence file):
  1. self-test of the checker: every catalogue mutant of the property and every kept seeded change of the property is applied to a scratch copy
     of /repo (outside /repo and /verif, removed afterwards) and the property's rules are run on it in a separate process;
  2. second toolchain: the checker is rebuilt with go1.26.8 + golang.org/x/tools v0.50.0 and its obligations on /repo are compared with the
     primary build's (multiset of rule/function/kind);
  3. cross-reference tools where they say something about the property (C17: errcheck -blank must only report the fail-soft RetrieveValue reads).
usage: thorough_extras.py <property> <primary obligations jsonl> <out json>"""
import json, os, shutil, subprocess, sys, tempfile, hashlib, glob, collections
prop, primary, out = sys.argv[1:4]
V = os.path.dirname(os.path.dirname(os.path.abspath(__file__)))
REPO = os.environ.get('VERIF_REPO', '/repo')
ENV = dict(os.environ, GOFLAGS='-mod=mod', GOPROXY='off', GOSUMDB='off', GOTOOLCHAIN='local', GOWORK='off')
res = {}
# ---- 1a mutants
try:
    tmpj = tempfile.mktemp(suffix='.json')
    subprocess.run([sys.executable, os.path.join(V, 'tools', 'mutants.py'), '-p', prop, '-j', '12', '--json', tmpj], env=ENV, capture_output=True, text=True, timeout=1500)
    ms = json.load(open(tmpj)); os.remove(tmpj)
    res['mutants'] = {'total': len(ms), 'detected': sum(1 for m in ms if m[2] in ('detected', 'silent-ok')),
                      'missed': [m[0] for m in ms if m[2] == 'MISSED'], 'false_alarms': [m[0] for m in ms if m[2] == 'FALSE-ALARM'],
                      'not_buildable': [m[0] for m in ms if m[2] in ('NOBUILD', 'NOAPPLY(0)')],
                      'list': [{'id': m[0], 'status': m[2], 'rules': m[3].strip()} for m in ms]}
except Exception as e:
    res['mutants'] = {'error': str(e)}
# ---- 1b seeds
NW = max(4, min(12, (os.cpu_count() or 8) - 2))
def one_seed(meta):
    m = json.load(open(meta))
    if m.get('breaks_property') != prop:
        return None
    d = tempfile.mkdtemp(prefix='vseed-')
    try:
        w = os.path.join(d, 'w')
        shutil.copytree(REPO, w, ignore=shutil.ignore_patterns('.git'))
        p = subprocess.run(['patch', '-p1', '-s', '-i', os.path.join(os.path.dirname(meta), 'patch.diff')], cwd=w, capture_output=True, text=True)
        if p.returncode != 0:
            return {'id': m['id'], 'status': 'patch does not apply to the current tree'}
        v = subprocess.run([os.path.join(V, 'bin', 'vcheck'), '-repo', w, '-verif', os.path.join(d, 'o'), '-known', os.path.join(V, 'known_findings.json'), '-p', prop],
                           env=ENV, capture_output=True, text=True)
        rules = sorted(set(l.split()[1] for l in v.stdout.splitlines() if l.strip().startswith('[')))
        return {'id': m['id'], 'status': {0: 'MISSED', 1: 'detected', 2: 'no verdict'}.get(v.returncode, 'rc%d' % v.returncode), 'rules': rules}
    finally:
        shutil.rmtree(d, ignore_errors=True)
try:
    import concurrent.futures as cf
    with cf.ThreadPoolExecutor(max_workers=NW) as ex:
        seeds = [r for r in ex.map(one_seed, sorted(glob.glob(os.path.join(V, 'seeded', '*', 'meta.json')))) if r]
except Exception as e:
    seeds = [{'error': str(e)}]
res['seeds'] = seeds
# ---- 1c behaviour-preserving refactorings: the property's rules must stay silent on each
refs = []
def one_ref(rd):
    d = tempfile.mkdtemp(prefix='vref-')
    try:
        w = os.path.join(d, 'w')
        shutil.copytree(REPO, w, ignore=shutil.ignore_patterns('.git'))
        p = subprocess.run(['patch', '-p1', '-s', '-i', os.path.join(rd, 'patch.diff')], cwd=w, capture_output=True, text=True)
        if p.returncode != 0:
            return {'id': os.path.basename(rd), 'status': 'patch does not apply to the current tree'}
        b = subprocess.run(['go', 'build', './...'], cwd=w, env=ENV, capture_output=True, text=True)
        if b.returncode != 0:
            return {'id': os.path.basename(rd), 'status': 'does not build on the current tree'}
        v = subprocess.run([os.path.join(V, 'bin', 'vcheck'), '-repo', w, '-verif', os.path.join(d, 'o'), '-known', os.path.join(V, 'known_findings.json'), '-p', prop],
                           env=ENV, capture_output=True, text=True)
        rules = sorted(set(l.split()[1] for l in v.stdout.splitlines() if l.strip().startswith('[')))
        return {'id': os.path.basename(rd), 'status': {0: 'silent', 1: 'FALSE-ALARM', 2: 'no verdict'}.get(v.returncode, 'rc%d' % v.returncode), 'rules': rules}
    finally:
        shutil.rmtree(d, ignore_errors=True)
try:
    import concurrent.futures as cf
    with cf.ThreadPoolExecutor(max_workers=NW) as ex:
        refs = list(ex.map(one_ref, sorted(glob.glob(os.path.join(V, 'refactors', '*')))))
except Exception as e:
    refs = [{'error': str(e)}]
res['refactorings'] = {'total': len(refs), 'silent': sum(1 for r in refs if r.get('status') == 'silent'),
                       'false_alarms': [r['id'] for r in refs if r.get('status') == 'FALSE-ALARM'], 'list': refs}
# ---- 2 second toolchain
try:
    src = os.path.join(V, 'checker')
    h = hashlib.sha256()
    for f in sorted(glob.glob(os.path.join(src, '*.go')) + glob.glob(os.path.join(src, 'spec', '*'))):
        h.update(open(f, 'rb').read())
    bdir = os.path.join(tempfile.gettempdir(), 'vcheck-xt50-' + h.hexdigest()[:12])
    exe = os.path.join(bdir, 'vcheck50')
    if not os.path.exists(exe):
        shutil.rmtree(bdir, ignore_errors=True); os.makedirs(os.path.join(bdir, 'spec'))
        for f in glob.glob(os.path.join(src, '*.go')): shutil.copy(f, bdir)
        for f in glob.glob(os.path.join(src, 'spec', '*')): shutil.copy(f, os.path.join(bdir, 'spec'))
        open(os.path.join(bdir, 'go.mod'), 'w').write('module vcheck\n\ngo 1.26.8\n\nrequire golang.org/x/tools v0.50.0\n')
        b = subprocess.run(['go1.26.8', 'build', '-o', exe, '.'], cwd=bdir, env=ENV, capture_output=True, text=True)
        if b.returncode != 0:
            raise RuntimeError('build with go1.26.8/x-tools v0.50.0 failed: ' + b.stderr[-300:])
    d = tempfile.mkdtemp(prefix='vxt50-')
    dump = os.path.join(d, 'obs.jsonl')
    subprocess.run([exe, '-repo', REPO, '-verif', os.path.join(d, 'o'), '-known', os.path.join(V, 'known_findings.json'), '-p', prop, '-dumpobs', dump], env=ENV, capture_output=True, text=True)
    def load(p):
        c = collections.Counter()
        for l in open(p):
            o = json.loads(l)
            if o.get('kind') == 'control': continue
            c[(o['rule'], o['function'], o['kind'])] += 1
        return c
    a, b2 = load(primary), load(dump)
    shutil.rmtree(d, ignore_errors=True)
    diff = [{'rule': k[0], 'function': k[1], 'kind': k[2], 'primary': a[k], 'second': b2[k]} for k in sorted(set(a) | set(b2)) if a[k] != b2[k]]
    res['second_toolchain'] = {'toolchain': 'go1.26.8 + golang.org/x/tools v0.50.0', 'obligations_primary': sum(a.values()), 'obligations_second': sum(b2.values()),
                               'identical': not diff, 'differences': diff[:20]}
except Exception as e:
    res['second_toolchain'] = {'error': str(e)}
# ---- 3 cross-reference tools
if prop == 'C17':
    try:
        r = subprocess.run(['errcheck', '-blank', './builtInFunctions/'], cwd=REPO, env=ENV, capture_output=True, text=True, timeout=300)
        lines = [l for l in r.stdout.splitlines() if l.strip() and '_test.go' not in l]
        other = [l for l in lines if 'RetrieveValue' not in l and 'SafeSubUint64' not in l]
        res['errcheck_blank'] = {'reports': lines, 'outside_the_excluded_reads': other}
    except Exception as e:
        res['errcheck_blank'] = {'error': str(e)}
json.dump(res, open(out, 'w'), indent=1)
