#!/bin/bash
# usage: twinverify.sh <dir with the twin's patch.diff (+notes.md)> <seed id>
# A twin is the restructuring of a seeded change with the defect repaired (behaviour-preserving). Confirms in a scratch worktree outside
# /repo and /verif: the twin applies, builds, the whole suite passes, the seed's demonstration passes with the twin (it fails with the seed);
# then stores it as /verif/refactors/W-<seed id>/ and prints what the checks say on the twin (they must be silent).
set -u
src=$1; id=$2
export GOFLAGS=-mod=mod GOPROXY=off GOSUMDB=off GOTOOLCHAIN=local
wt=/tmp/tv-$id
git -C /repo worktree remove --force $wt 2>/dev/null
git -C /repo worktree add -q --detach $wt HEAD || exit 2
demo=/verif/seeded/$id/demo_test.go.txt
pk=$(grep -m1 '^package ' $demo | awk '{print $2}' | sed 's/_test$//')
case $pk in
  esdt) pkgdir=data/esdt;; data) pkgdir=data;; parsers) pkgdir=parsers;; vmcommon) pkgdir=.;; atomic) pkgdir=atomic;; container) pkgdir=container;;
  txDataBuilder) pkgdir=txDataBuilder;; check) pkgdir=check;; *) pkgdir=builtInFunctions;;
esac
names=$(grep -o '^func Test[A-Za-z0-9_]*' $demo | sed 's/func //' | paste -sd'|')
( cd $wt && git apply $src/patch.diff ) || { echo "$id: twin patch does not apply"; git -C /repo worktree remove --force $wt; exit 2; }
( cd $wt && go build ./... && go test -vet=off -count=1 ./... >/tmp/tv-$id.suite.log 2>&1 ); suite=$?
cp $demo $wt/$pkgdir/zz_seed_demo_test.go
( cd $wt && go test -vet=off -count=1 -run "^($names)\$" ./$pkgdir/ >/tmp/tv-$id.demo.log 2>&1 ); demo_rc=$?
rm -f $wt/$pkgdir/zz_seed_demo_test.go
fmt=$(cd $wt && gofmt -l $(git diff --name-only | grep '\.go$') 2>/dev/null | wc -l)
${VCHECK:-/verif/bin/vcheck} -repo $wt -verif /tmp/tv-$id.out -known /verif/known_findings.json -p all > /tmp/tv-$id.check.log 2>&1
hits=$(grep '^VIOLATION' /tmp/tv-$id.check.log | sed 's/.*property=\([A-Z0-9]*\).*/\1/' | sort -u | paste -sd,)
git -C /repo worktree remove --force $wt; rm -rf /tmp/tv-$id.out
echo "$id: suite=$suite demo_with_twin=$demo_rc (both 0=pass) gofmt_dirty=$fmt alarms=[$hits]"
if [ $suite -eq 0 ] && [ $demo_rc -eq 0 ]; then
  mkdir -p /verif/refactors/W-$id
  cp $src/patch.diff /verif/refactors/W-$id/patch.diff
  [ -f $src/notes.md ] && cp $src/notes.md /verif/refactors/W-$id/notes.md
else
  echo "  NOT KEPT"; tail -5 /tmp/tv-$id.suite.log /tmp/tv-$id.demo.log
fi
rm -f /tmp/tv-$id.suite.log /tmp/tv-$id.demo.log
