#!/bin/sh
# Builds the checker if needed (offline, from /verif/checker) and runs it against /repo's current working tree.
set -e
cd "$(dirname "$0")"
export GOFLAGS=-mod=mod GOPROXY=off GOSUMDB=off GOTOOLCHAIN=local GOWORK=off
if [ ! -x bin/vcheck ] || [ -n "$(find checker -newer bin/vcheck -name '*.go' 2>/dev/null | head -1)" ]; then
  mkdir -p bin
  (cd checker && go build -o ../bin/vcheck .) || { echo "vcheck: build failed" >&2; exit 2; }
fi
exec bin/vcheck -repo "${VERIF_REPO:-/repo}" -verif "$(pwd)" "$@"
